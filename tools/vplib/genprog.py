"""Generator of core-language Garden programs (mostly valid, type-directed, terminating),
with optional injected runtime errors. Every random choice comes from the rng passed in."""

TYPES = ["Int", "Bool", "Str", "ListInt", "OptInt"]
INT_OPS = ["+", "-", "*", "/", "%", "&", "|"]
CMP_OPS = ["<", ">", "<=", ">=", "==", "!="]


class Gen:
    def __init__(self, rng, size=12, p_err=0.0, annotate=False, features=None):
        self.r = rng
        self.size = size
        self.p_err = p_err
        self.annotate = annotate
        self.nvar = 0
        self.nfun = 0
        self.funs = []          # (name, [param types], ret type)
        self.scopes = [dict()]
        self.enum = False
        self.features = features or {"fun", "closure", "match", "for", "while", "list", "tuple", "enum", "break", "return", "shadow"}
        self.err_injected = 0

    # ---- helpers
    def fresh(self, p="v"):
        self.nvar += 1
        return "%s%d" % (p, self.nvar)

    def binder(self, ty, p="v"):
        """Name for a new binder of type ty. With feature "shadow" it is sometimes the name of a visible variable of
        the SAME type (never a while-loop counter), so that the new binder shadows it."""
        if "shadow" in self.features and self.r.random() < 0.3:
            vs = [v for v in self.vars_of(ty) if not v.startswith("i")]
            if vs:
                return self.pick(vs)
        return self.fresh(p)

    def vars_of(self, ty):
        out = []
        for sc in self.scopes:
            for k, t in sc.items():
                if t == ty:
                    out.append(k)
        return out

    def pick(self, l):
        return l[self.r.randrange(len(l))]

    def maybe_err(self, ty):
        """With probability p_err return an expression that fails at run time (or has the wrong type)."""
        if self.p_err and self.r.random() < self.p_err:
            self.err_injected += 1
            k = self.r.randrange(8)
            if k == 0:
                return "nosuchvar%d" % self.r.randrange(3)
            if k == 1:
                return "(1 / 0)"
            if k == 2:
                return "(1 + True)"
            if k == 3:
                return '("a" ^ 2)'
            if k == 4:
                return "string_repr()"
            if k == 5:
                return "(5)(1)"
            if k == 6:
                return "(9223372036854775807 ** 2)"
            return "(True && 1)"
        return None

    # ---- expressions
    def expr(self, ty, d=0):
        e = self.maybe_err(ty)
        if e is not None:
            return e
        r = self.r
        vs = self.vars_of(ty)
        leaf = d >= 3 or r.random() < 0.3
        if ty == "Int":
            if leaf:
                if vs and r.random() < 0.6:
                    return self.pick(vs)
                return str(self.pick([0, 1, 2, 3, 5, 7, 10, -1, -4, 100]))
            k = r.randrange(6)
            if k <= 2:
                op = self.pick(INT_OPS)
                rhs = self.expr("Int", d + 1)
                if op in ("/", "%"):
                    rhs = str(self.pick([1, 2, 3, -2, 7]))      # keep valid programs valid
                return "(%s %s %s)" % (self.expr("Int", d + 1), op, rhs)
            if k == 3 and self.funs and "fun" in self.features:
                f = [x for x in self.funs if x[2] == "Int"]
                if f:
                    name, ps, _ = self.pick(f)
                    return "%s(%s)" % (name, ", ".join(self.expr(p, d + 1) for p in ps))
            if k == 4 and "match" in self.features:
                return "match %s { Some(m%d) => m%d + 1, None => %s }" % (
                    self.expr("OptInt", d + 1), d, d, self.expr("Int", d + 1))
            if k == 5:
                return "(if %s { %s } else { %s })" % (self.expr("Bool", d + 1), self.expr("Int", d + 1), self.expr("Int", d + 1))
            return "(%s + %s)" % (self.expr("Int", d + 1), self.expr("Int", d + 1))
        if ty == "Bool":
            if leaf:
                if vs and r.random() < 0.5:
                    return self.pick(vs)
                return self.pick(["True", "False"])
            k = r.randrange(4)
            if k == 0:
                return "(%s %s %s)" % (self.expr("Int", d + 1), self.pick(CMP_OPS), self.expr("Int", d + 1))
            if k == 1:
                return "(%s %s %s)" % (self.expr("Bool", d + 1), self.pick(["&&", "||"]), self.expr("Bool", d + 1))
            if k == 2:
                return "(%s == %s)" % (self.expr("Str", d + 1), self.expr("Str", d + 1))
            return "(%s != %s)" % (self.expr("ListInt", d + 1), self.expr("ListInt", d + 1))
        if ty == "Str":
            if leaf:
                if vs and r.random() < 0.5:
                    return self.pick(vs)
                return self.pick(['"a"', '""', '"b c"', '"x\\ny"', '"q\\"r"', '"é"'])
            k = r.randrange(3)
            if k == 0:
                return "(%s ^ %s)" % (self.expr("Str", d + 1), self.expr("Str", d + 1))
            if k == 1:
                return "string_repr(%s)" % self.expr(self.pick(TYPES), d + 1)
            return "(if %s { %s } else { %s })" % (self.expr("Bool", d + 1), self.expr("Str", d + 1), self.expr("Str", d + 1))
        if ty == "ListInt":
            if leaf and vs and r.random() < 0.6:
                return self.pick(vs)
            n = r.randrange(4)
            return "[%s]" % ", ".join(self.expr("Int", d + 2) for _ in range(n))
        if ty == "OptInt":
            if leaf and vs and r.random() < 0.5:
                return self.pick(vs)
            if r.random() < 0.4:
                return "None"
            return "Some(%s)" % self.expr("Int", d + 1)
        raise ValueError(ty)

    # ---- statements
    def block(self, n, d, in_loop, in_fun, ret=None):
        self.scopes.append({})
        out = []
        for _ in range(n):
            out.append(self.stmt(d, in_loop, in_fun, ret))
        self.scopes.pop()
        return out

    def fmt_block(self, stmts, ind):
        pad = "  " * (ind + 1)
        return "{\n" + "".join(pad + s.replace("\n", "\n" + pad) + "\n" for s in stmts) + "  " * ind + "}"

    def stmt(self, d, in_loop, in_fun, ret):
        r = self.r
        k = r.randrange(15 if "aclosure" in self.features else 13)
        if k == 14:
            k = 13
        nested = d < 3
        if k <= 2:
            ty = self.pick(TYPES)
            e = self.expr(ty, 1)
            v = self.binder(ty)
            self.scopes[-1][v] = ty
            return "let %s = %s" % (v, e)
        if k == 3:
            vs = [v for v in self.vars_of("Int") if not v.startswith("i")]
            if vs:
                return "%s = %s" % (self.pick(vs), self.expr("Int", 1))
        if k == 4:
            vs = [v for v in self.vars_of("Int") if not v.startswith("i")]
            if vs:
                return "%s %s %s" % (self.pick(vs), self.pick(["+=", "-="]), self.expr("Int", 2))
        if k == 5:
            return "println(string_repr(%s))" % self.expr(self.pick(TYPES), 1)
        if k == 6 and nested:
            c = self.expr("Bool", 1)
            t = self.block(r.randrange(1, 3), d + 1, in_loop, in_fun, ret)
            if r.random() < 0.5:
                e = self.block(r.randrange(1, 3), d + 1, in_loop, in_fun, ret)
                return "if %s %s else %s" % (c, self.fmt_block(t, 0), self.fmt_block(e, 0))
            return "if %s %s" % (c, self.fmt_block(t, 0))
        if k == 7 and nested and "while" in self.features:
            i = self.fresh("i")
            bound = r.randrange(1, 4)
            self.scopes.append({i: "Int"})
            body = self.block(r.randrange(1, 3), d + 1, True, in_fun, ret)
            self.scopes.pop()
            return "let %s = 0\nwhile %s < %d %s" % (i, i, bound, self.fmt_block(["%s += 1" % i] + body, 0))
        if k == 8 and nested and "for" in self.features:
            x = self.binder("Int", "x")
            it = self.expr("ListInt", 1)
            self.scopes.append({x: "Int"})
            body = self.block(r.randrange(1, 3), d + 1, True, in_fun, ret)
            self.scopes.pop()
            return "for %s in %s %s" % (x, it, self.fmt_block(body, 0))
        if k == 9 and in_loop and "break" in self.features:
            return "if %s { %s }" % (self.expr("Bool", 2), self.pick(["break", "continue"]))
        if k == 10 and in_fun and ret and "return" in self.features:
            return "if %s { return %s }" % (self.expr("Bool", 2), self.expr(ret, 2))
        if k == 11 and nested and "match" in self.features:
            m = self.binder("Int", "m")
            sc = self.expr("OptInt", 1)
            self.scopes.append({m: "Int"})
            a = self.block(1, d + 1, in_loop, in_fun, ret)
            self.scopes.pop()
            b = self.block(1, d + 1, in_loop, in_fun, ret)
            return "match %s {\n  Some(%s) => %s\n  None => %s\n}" % (sc, m, self.fmt_block(a, 1), self.fmt_block(b, 1))
        if k == 12 and "closure" in self.features and nested:
            f = self.fresh("f")
            p = self.binder("Int", "p")
            self.scopes.append({p: "Int"})
            pre = []
            if r.random() < 0.4:
                # a lambda body with statements whose values are discarded before the final expression
                for _ in range(r.randrange(1, 3)):
                    if r.random() < 0.5:
                        w = self.fresh("w")
                        pre.append("let %s = %s" % (w, self.expr("Int", 2)))
                        self.scopes[-1][w] = "Int"
                    else:
                        pre.append(self.expr(self.pick(["Int", "Str", "Bool"]), 2))
            body = self.expr("Int", 1)
            self.scopes.pop()
            arg = self.expr("Int", 2)
            v = self.fresh()
            self.scopes[-1][v] = "Int"
            if pre:
                return "let %s = fun(%s) %s\nlet %s = %s(%s)" % (f, p, self.fmt_block(pre + [body], 0), v, f, arg)
            return "let %s = fun(%s) { %s }\nlet %s = %s(%s)" % (f, p, body, v, f, arg)
        if k == 13 and "aclosure" in self.features and nested:
            # fully annotated lambda with its own return type and an early `return` (the lambda's type, not the
            # enclosing function's)
            hint = {"Int": "Int", "Bool": "Bool", "Str": "String"}
            f = self.fresh("g")
            p = self.fresh("p")
            pty = self.pick(["Int", "Bool", "Str"])
            lret = self.pick([t for t in ("Int", "Bool", "Str") if t != ret] or ["Int"])
            self.scopes.append({p: pty})
            cond = self.expr("Bool", 1)
            early = self.expr(lret, 1)
            last = self.expr(lret, 1)
            self.scopes.pop()
            arg = self.expr(pty, 2)
            v = self.fresh()
            self.scopes[-1][v] = lret
            return ("let %s = fun(%s: %s): %s {\n  if %s { return %s }\n  %s\n}\nlet %s = %s(%s)"
                    % (f, p, hint[pty], hint[lret], cond, early, last, v, f, arg))
        return "println(string_repr(%s))" % self.expr("Int", 1)

    def fun(self):
        self.nfun += 1
        name = "fn%d" % self.nfun
        nps = self.r.randrange(0, 3)
        ptys = [self.pick(["Int", "Int", "Bool", "Str", "ListInt"]) for _ in range(nps)]
        ret = self.pick(["Int", "Int", "Bool", "Str"])
        ps = ["a%d" % i for i in range(nps)]
        saved = self.scopes
        self.scopes = [dict(zip(ps, ptys))]
        body = self.block(self.r.randrange(1, 4), 1, False, True, ret)
        self.scopes.append({})
        last = self.expr(ret, 1)
        self.scopes = saved
        hint = {"Int": "Int", "Bool": "Bool", "Str": "String", "ListInt": "List<Int>", "OptInt": "Option<Int>"}
        if self.annotate:
            sig = "fun %s(%s): %s" % (name, ", ".join("%s: %s" % (p, hint[t]) for p, t in zip(ps, ptys)), hint[ret])
        else:
            sig = "fun %s(%s)" % (name, ", ".join(ps))
        src = "%s %s" % (sig, self.fmt_block(body + [last], 0))
        self.funs.append((name, ptys, ret))
        return src

    def program(self):
        parts = []
        if "fun" in self.features:
            for _ in range(self.r.randrange(0, 3)):
                parts.append(self.fun())
        n = max(1, self.size + self.r.randrange(-3, 4))
        for _ in range(n):
            parts.append(self.stmt(0, False, False, None))
        parts.append(self.expr(self.pick(TYPES), 1))
        return "\n".join(parts) + "\n"


def programs(rng, n, **kw):
    out = []
    for _ in range(n):
        g = Gen(rng, **kw)
        out.append(g.program())
    return out
