"""Grammar-directed generator of Garden syntax TREES with a canonical printer to source text and the
expected S-expression (the format of the hook op `sexp` without positions, `#unused` markers removed)."""

OPS = {"+": "Add", "+.": "AddFloat", "-": "Subtract", "-.": "SubtractFloat", "*": "Multiply", "*.": "MultiplyFloat",
       "/": "Divide", "/.": "DivideFloat", "%": "Modulo", "**": "Exponent", "==": "Equal", "!=": "NotEqual",
       "<": "LessThan", "<=": "LessThanOrEqual", ">": "GreaterThan", ">=": "GreaterThanOrEqual", "&&": "And",
       "||": "Or", "&": "BitwiseAnd", "|": "BitwiseOr", "^": "StringConcat"}
NAMES = ["x", "y", "foo", "bar_2", "_z", "q"]
TYPES = ["Int", "String", "Foo", "T"]
STRS = ["", "a", "a b", "q\"r", "b\\s", "l\nm", "é€"]


def q(s):
    return '"' + s.replace("\\", "\\\\").replace('"', '\\"').replace("\n", "\\n") + '"'


class G:
    def __init__(self, rng, maxd=4):
        self.r = rng
        self.maxd = maxd

    def pick(self, l):
        return l[self.r.randrange(len(l))]

    # every generator returns (src, sexp)
    def hint(self, d=0):
        k = self.r.randrange(5 if d < 2 else 2)
        if k <= 1:
            t = self.pick(TYPES)
            return t, "(hint %s)" % t
        if k == 2:
            a, b = self.hint(d + 1), self.hint(d + 1)
            return "Result<%s, %s>" % (a[0], b[0]), "(hint Result %s %s)" % (a[1], b[1])
        if k == 3:
            a = self.hint(d + 1)
            return "List<%s>" % a[0], "(hint List %s)" % a[1]
        a, b = self.hint(d + 1), self.hint(d + 1)
        return "(%s, %s)" % (a[0], b[0]), "(hint Tuple %s %s)" % (a[1], b[1])

    def opt_hint(self):
        if self.r.random() < 0.5:
            return None, "(nohint)"
        return self.hint()

    def operand(self, d):
        """An expression that can be an operand of a binary operator without parentheses."""
        r = self.r
        k = r.randrange(12 if d < self.maxd else 3)
        if k == 0:
            n = self.pick([0, 1, 7, 42, 123456789, -5])
            return str(n), "(int %d)" % n
        if k == 1:
            s = self.pick(STRS)
            return q(s), "(str %s)" % q(s)
        if k == 2:
            v = self.pick(NAMES)
            return v, "(var %s)" % v
        if k == 3:
            e = self.expr(d + 1)
            return "(%s)" % e[0], "(paren %s)" % e[1]
        if k == 4:
            f = self.pick(NAMES)
            args = [self.expr(d + 1) for _ in range(r.randrange(3))]
            return "%s(%s)" % (f, ", ".join(a[0] for a in args)), "(call (var %s) (args%s))" % (f, "".join(" " + a[1] for a in args))
        if k == 5:
            recv = self.operand(d + 1)
            m = self.pick(NAMES)
            args = [self.expr(d + 1) for _ in range(r.randrange(2))]
            return "%s.%s(%s)" % (recv[0], m, ", ".join(a[0] for a in args)), \
                "(methodcall %s (sym %s) (args%s))" % (recv[1], m, "".join(" " + a[1] for a in args))
        if k == 6:
            recv = self.operand(d + 1)
            f = self.pick(NAMES)
            return "%s.%s" % (recv[0], f), "(dot %s (sym %s))" % (recv[1], f)
        if k == 7:
            items = [self.expr(d + 1) for _ in range(r.randrange(4))]
            return "[%s]" % ", ".join(a[0] for a in items), "(list%s)" % "".join(" " + a[1] for a in items)
        if k == 8:
            items = [self.expr(d + 1) for _ in range(r.randrange(2, 4))]
            return "(%s)" % ", ".join(a[0] for a in items), "(tuple%s)" % "".join(" " + a[1] for a in items)
        if k == 9:
            n = r.randrange(3)
            kvs = [(self.expr(d + 1), self.expr(d + 1)) for _ in range(n)]
            return "Dict[%s]" % ", ".join("%s => %s" % (a[0], b[0]) for a, b in kvs), \
                "(dict%s)" % "".join(" (kv %s %s)" % (a[1], b[1]) for a, b in kvs)
        if k == 10:
            fields = [(self.pick(NAMES), self.expr(d + 1)) for _ in range(r.randrange(3))]
            return "Foo{ %s }" % ", ".join("%s: %s" % (n, e[0]) for n, e in fields) if fields else "Foo{}", \
                "(struct Foo%s)" % "".join(" (field (sym %s) %s)" % (n, e[1]) for n, e in fields)
        ps = [self.pick(NAMES) for _ in range(r.randrange(3))]
        ps = list(dict.fromkeys(ps))
        b = self.block(d + 1)
        return "fun(%s) %s" % (", ".join(ps), b[0]), \
            "(funlit (funinfo (anon) (tparams) (params%s) (ret (nohint)) %s))" % (
                "".join(" (p (sym %s) (nohint))" % p for p in ps), b[1])

    def expr(self, d):
        """operand (op operand)*  -- left nested"""
        n = self.r.randrange(3) if d < self.maxd else 0
        cur = self.operand(d)
        for _ in range(n):
            o = self.pick(list(OPS))
            rhs = self.operand(d + 1)
            cur = ("%s %s %s" % (cur[0], o, rhs[0]), "(bin %s %s %s)" % (OPS[o], cur[1], rhs[1]))
        return cur

    def block(self, d):
        n = self.r.randrange(3) if d < self.maxd else self.r.randrange(2)
        stmts = [self.stmt(d + 1) for _ in range(n)]
        return "{ " + " ".join(s[0] + "\n" for s in stmts) + "}", "(block%s)" % "".join(" " + s[1] for s in stmts)

    def stmt(self, d):
        r = self.r
        k = r.randrange(13 if d < self.maxd else 4)
        if k <= 1:
            return self.expr(d)
        if k == 2:
            v = self.pick(NAMES)
            h = self.opt_hint()
            e = self.expr(d)
            return "let %s%s = %s" % (v, (": " + h[0]) if h[0] else "", e[0]), "(let (sym %s) %s %s)" % (v, h[1], e[1])
        if k == 3:
            v = self.pick(NAMES)
            e = self.expr(d)
            if r.random() < 0.5:
                return "%s = %s" % (v, e[0]), "(assign (sym %s) %s)" % (v, e[1])
            o = self.pick(["+=", "-="])
            return "%s %s %s" % (v, o, e[0]), "(assignupdate %s (sym %s) %s)" % (o, v, e[1])
        if k == 4:
            c, t = self.expr(d), self.block(d)
            if r.random() < 0.5:
                e = self.block(d)
                return "if %s %s else %s" % (c[0], t[0], e[0]), "(if %s %s %s)" % (c[1], t[1], e[1])
            return "if %s %s" % (c[0], t[0]), "(if %s %s)" % (c[1], t[1])
        if k == 5:
            c, b = self.expr(d), self.block(d)
            return "while %s %s" % (c[0], b[0]), "(while %s %s)" % (c[1], b[1])
        if k == 6:
            v, e, b = self.pick(NAMES), self.expr(d), self.block(d)
            return "for %s in %s %s" % (v, e[0], b[0]), "(for (sym %s) %s %s)" % (v, e[1], b[1])
        if k == 7:
            return self.pick([("break", "(break)"), ("continue", "(continue)")])
        if k == 8:
            e = self.expr(d)
            return "return %s" % e[0], "(return %s)" % e[1]
        if k == 9:
            s = self.expr(d)
            cases = []
            for _ in range(r.randrange(1, 3)):
                v = self.pick(["Some", "None", "Ok", "Aa", "_"])
                b = self.block(d)
                if r.random() < 0.5 and v != "_":
                    x = self.pick(NAMES)
                    cases.append(("%s(%s) => %s" % (v, x, b[0]), "(case (sym %s) (sym %s) %s)" % (v, x, b[1])))
                else:
                    cases.append(("%s => %s" % (v, b[0]), "(case (sym %s) %s)" % (v, b[1])))
            return "match %s { %s }" % (s[0], " ".join(c[0] for c in cases)), "(match %s%s)" % (s[1], "".join(" " + c[1] for c in cases))
        if k == 10:
            a, b = self.r.sample(NAMES, 2)
            e = self.expr(d)
            return "let (%s, %s) = %s" % (a, b, e[0]), "(let (destructure (sym %s) (sym %s)) (nohint) %s)" % (a, b, e[1])
        if k == 11:
            e = self.expr(d)
            return "assert(%s)" % e[0], "(assert %s)" % e[1]
        a, b = self.r.sample(NAMES, 2)
        e, blk = self.expr(d), self.block(d)
        return "for (%s, %s) in %s %s" % (a, b, e[0], blk[0]), "(for (destructure (sym %s) (sym %s)) %s %s)" % (a, b, e[1], blk[1])

    def funinfo(self, name, d, this=None):
        r = self.r
        tps = list(dict.fromkeys(self.pick(["T", "U"]) for _ in range(r.randrange(3))))
        ps = list(dict.fromkeys(self.pick(NAMES) for _ in range(r.randrange(3))))
        params = []
        if this:
            params.append(("this: " + this[0], "(p (sym this) %s)" % this[1]))
        for p in ps:
            h = self.opt_hint()
            params.append((p + ((": " + h[0]) if h[0] else ""), "(p (sym %s) %s)" % (p, h[1])))
        ret = self.opt_hint()
        b = self.block(d)
        src = "%s%s(%s)%s %s" % (name, ("<%s>" % ", ".join(tps)) if tps else "", ", ".join(p[0] for p in params),
                                 (": " + ret[0]) if ret[0] else "", b[0])
        sx = "(funinfo (sym %s) (tparams%s) (params%s) (ret %s) %s)" % (
            name, "".join(" " + t for t in tps), "".join(" " + p[1] for p in params), ret[1], b[1])
        return src, sx

    def item(self, d=1):
        r = self.r
        k = r.randrange(8)
        pub = "public " if r.random() < 0.3 else ""
        if k <= 1:
            f = self.funinfo(self.pick(["f1", "g2", "helper"]), d)
            return "%sfun %s" % (pub, f[0]), "(fun %s%s)" % (pub, f[1])
        if k == 2:
            recv = self.pick([("Foo", "(hint Foo)"), ("List<T>", "(hint List (hint T))"), ("String", "(hint String)")])
            name = self.pick(["m1", "get"])
            f = self.funinfo(name, d, this=recv)
            # the method's funinfo lists `this` as an ordinary parameter? -- it does not: strip it
            fsx = f[1].replace(" (p (sym this) %s)" % recv[1], "", 1)
            return "%smethod %s" % (pub, f[0]), "(method %s%s (sym this) (sym %s) %s)" % (pub, recv[1], name, fsx)
        if k == 3:
            b = self.block(d)
            n = self.pick(["t1", "check_it"])
            return "test %s %s" % (n, b[0]), "(test (sym %s) %s)" % (n, b[1])
        if k == 4:
            tps = list(dict.fromkeys(self.pick(["T", "U"]) for _ in range(r.randrange(2))))
            vs = []
            for v in list(dict.fromkeys(self.pick(["Aa", "Bb", "Cc"]) for _ in range(r.randrange(1, 4)))):
                if r.random() < 0.5:
                    h = self.hint()
                    vs.append(("%s(%s)" % (v, h[0]), "(variant (sym %s) %s)" % (v, h[1])))
                else:
                    vs.append((v, "(variant (sym %s) (nohint))" % v))
            return "%senum En%s { %s }" % (pub, ("<%s>" % ", ".join(tps)) if tps else "", ", ".join(v[0] for v in vs)), \
                "(enum %sEn (tparams%s)%s)" % (pub, "".join(" " + t for t in tps), "".join(" " + v[1] for v in vs))
        if k == 5:
            fs = []
            for f in list(dict.fromkeys(self.pick(NAMES) for _ in range(r.randrange(0, 3)))):
                h = self.hint()
                fs.append(("%s: %s" % (f, h[0]), "(fielddef (sym %s) %s)" % (f, h[1])))
            return "%sstruct St { %s }" % (pub, ", ".join(f[0] for f in fs)), "(structdef %sSt (tparams)%s)" % (pub, "".join(" " + f[1] for f in fs))
        if k == 6:
            p = self.pick(["./lib.gdn", "__fs.gdn"])
            if r.random() < 0.5:
                return 'import "%s" as ns' % p, '(import "%s" (sym ns))' % p
            return 'import "%s"' % p, '(import "%s")' % p
        while True:
            st = self.stmt(d)
            # a toplevel item that starts with the keyword `fun` is read as a definition (grammar restriction)
            if not st[0].startswith("fun("):
                return st

    def program(self, n):
        items = [self.item() for _ in range(n)]
        return "\n".join(i[0] for i in items) + "\n", [i[1] for i in items]
