"""Shared helpers for the properties that use the evaluator model (Machine.v)."""
import json

from . import common, oracle


def impl_line(resp, aborted=False):
    """Canonical one-line form of a verif-batch `run` response (same format as the OCaml op `machine`)."""
    if "panic" in resp:
        return "crashed\t-\t0\t-", resp
    if "parse_errors" in resp:
        return "parse_error\t-\t0\t-", resp
    if "outcomes" not in resp:
        return "no_response\t-\t0\t-", resp
    outs = []
    for o in resp["outcomes"]:
        k = o["kind"]
        if k == "ok":
            v = o["value"]
            outs.append("ok:" + common.hexs(v if v is not None else "Unit"))
        elif k in ("exception", "tick_limit", "stack_limit", "assertion", "sandbox"):
            outs.append("%s:%d:%d" % (k, o["pos"][0], o["pos"][1]))
        else:
            outs.append(k)
    def fs(fr):
        return ";".join("%d,%d,%d,%d" % (f["values"], f["blocks"], f["todo"], f["next"]) for f in fr)
    frames = fs(resp["frames"][-1])
    if aborted:
        frames = fs(resp["frames"][-2]) + "/" + frames
    return "|".join(outs) + "\t" + common.hexs(resp["stdout"]) + "\t" + str(resp["ticks"]) + "\t" + frames, resp


def run_both(ctx, srcs, resume=0, tick_limit=None, stack_limit=None, interrupts=None, fuel=200000, abort=False):
    """Run each program on the implementation (hook op `run`) and on the extracted model.
    interrupts: None or list (per program) of tick lists.
    Returns list of dict(src, impl, model, impl_raw)."""
    exe, mdl = ctx.impl(), ctx.model("machine")
    reqs = []
    for i, s in enumerate(srcs):
        r = {"op": "run", "src": s, "resume": resume}
        if tick_limit is not None:
            r["tick_limit"] = tick_limit
        if stack_limit is not None:
            r["stack_limit"] = stack_limit
        if interrupts:
            r["interrupt_at"] = interrupts[i]
        if abort:
            r["abort"] = True
        reqs.append(r)
    impl = oracle.batch(exe, reqs, timeout=900)
    sx = oracle.batch(exe, [{"op": "sexp", "src": s, "positions": True} for s in srcs], timeout=900)
    lines = []
    for i, s in enumerate(srcs):
        items = sx[i].get("items")
        if items is None or sx[i].get("errors"):
            lines.append("machine\t1\t-\t-\t0\t-\t" + common.hexs("(unparsed)"))
            continue
        intr = "-"
        if interrupts and interrupts[i]:
            intr = ",".join(str(k) for k in interrupts[i])
        lines.append("machine\t%d\t%s\t%s\t%d\t%s\t%s" % (
            fuel, "-" if tick_limit is None else tick_limit, "-" if stack_limit is None else stack_limit,
            resume, intr, common.hexs("\n".join(items))) + ("\tabort" if abort else ""))
    rc, model, err = common.run_lines(mdl, [], lines, timeout=900, shards=common.NCPU)
    res = []
    for i, s in enumerate(srcs):
        il, raw = impl_line(impl[i], abort)
        res.append({"src": s, "impl": il, "model": model[i] if i < len(model) else "<missing>", "impl_raw": raw})
    return res


TRUSTED = [
    "Coq 8.16.1 kernel (coqc); vm_compute only in Examples; no native_compute",
    "coq/Machine.v is a HAND-WRITTEN model of eval.rs (eval loop, eval_expr, eval_block, eval_break/continue, calls, match) "
    "for the core language; tied to the code by differential execution only (hook op `run` vs extracted `step`: outcomes, "
    "error positions, stdout, tick counts, per-frame stack sizes)",
    "tools/gen_tables.py (integer operator arms used by the model)",
    "Extraction (ExtrOcamlBasic) + ocaml/ops_machine.ml (S-expression reader, uses the implementation's own parser output)",
    "cfg-gated hook `garden verif-batch` op run / sexp (src/verif_hooks.rs) and tick-based interrupt injection in eval.rs",
]


def correspondence(ctx, srcs, label, **kw):
    """Differential run; records stats and a broken tie on disagreement. Returns results."""
    res = run_both(ctx, srcs, **kw)
    bad = []
    for r in res:
        mk = r["model"].split("\t")[0]
        ik = r["impl"].split("\t")[0]
        ctx.stat("%s impl:%s" % (label, ik.split("|")[0].split(":")[0]))
        if mk.startswith("unsupported"):
            ctx.stat(label + " outside-model")
            continue
        if "outoffuel" in mk:
            ctx.stat(label + " model-out-of-fuel")
            continue
        ctx.stat(label + " compared")
        if r["impl"] != r["model"]:
            bad.append(r)
    if bad:
        ctx.broken("correspondence:machine:" + label,
                   "%d of %d programs differ, e.g. %s" % (len(bad), len(res), json.dumps(
                       [{"src": b["src"], "impl": b["impl"], "model": b["model"]} for b in bad[:2]])[:1500]))
        ctx.cov.setdefault("corr_mismatches", []).extend(
            [{"src": b["src"], "impl": b["impl"], "model": b["model"]} for b in bad[:5]])
    return res


def outcome_kinds(line):
    return [o.split(":")[0] for o in line.split("\t")[0].split("|")]
