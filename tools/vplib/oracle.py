"""Drivers for the implementation under test (the garden binary)."""
import concurrent.futures
import json
import os
import re
import subprocess
import tempfile

from . import common

_dec = json.JSONDecoder()


def parse_json_stream(text):
    """Concatenated (pretty-printed) JSON values -> list."""
    res = []
    i, n = 0, len(text)
    while i < n:
        while i < n and text[i] in " \r\n\t":
            i += 1
        if i >= n:
            break
        try:
            v, j = _dec.raw_decode(text, i)
        except json.JSONDecodeError:
            break
        res.append(v)
        i = j
    return res


def scratch_dir():
    d = os.path.join(common.CACHE, "scratch")
    os.makedirs(d, exist_ok=True)
    return d


def run_session_raw(exe, reqs, timeout=120, cwd=None, env=None):
    """One `garden reftest-json-session` process over the given request dicts.
    Returns (responses, stderr, rc)."""
    with tempfile.NamedTemporaryFile("w", suffix=".jsonl", dir=scratch_dir(), delete=False) as f:
        for r in reqs:
            f.write(json.dumps(r) + "\n")
        path = f.name
    try:
        e = dict(os.environ)
        e["RUST_BACKTRACE"] = "0"
        if env:
            e.update(env)
        rc, out, err = common.sh([exe, "reftest-json-session", path], timeout=timeout, cwd=cwd or scratch_dir(), env=e)
    finally:
        os.unlink(path)
    return parse_json_stream(out), err, rc


def is_final(resp):
    """Responses that answer a request (as opposed to streamed prints)."""
    k = resp.get("kind", {})
    return not ("printed" in k or "printed_stderr" in k)


def group_responses(resps):
    """Attach streamed prints to the following final response.
    Returns list of (final_response, stdout, stderr)."""
    out, err, res = "", "", []
    for r in resps:
        k = r.get("kind", {})
        if "printed" in k:
            out += k["printed"]["s"]
        elif "printed_stderr" in k:
            err += k["printed_stderr"]["s"]
        else:
            res.append((r, out, err))
            out, err = "", ""
    return res


def classify(resp):
    """Normalise a final response to a small dict:
    {kind: ok|error|parse_error|command|malformed|interrupted|other, value, message, position, err_kind}."""
    k = resp.get("kind", {})
    if "evaluate" in k:
        v = k["evaluate"]["value"]
        if "Ok" in v:
            return {"kind": "ok", "value": v["Ok"]}
        errs = v.get("Err") or []
        e = errs[0] if errs else {}
        msg = e.get("message", "")
        pos = e.get("position")
        p = None
        if pos:
            p = [pos["start_offset"], pos["end_offset"], pos["line_number"], pos["end_line_number"],
                 pos["column"], pos["end_column"]]
        ek = "exception"
        if msg.startswith("Exception: "):
            ek = "exception"
        elif msg.startswith("Assertion failed") or "Assertion failed" in msg[:40]:
            ek = "assertion"
        elif msg.startswith("Interrupted"):
            ek = "interrupted"
        elif "tick limit" in msg:
            ek = "tick_limit"
        elif "stack limit" in msg:
            ek = "stack_limit"
        elif "sandbox" in msg:
            ek = "sandbox"
        elif e.get("stack") is None and pos is None:
            ek = "parse_incomplete"
        return {"kind": "error", "err_kind": ek, "message": msg, "position": p, "n_errors": len(errs)}
    if "run_command" in k:
        return {"kind": "command", "message": k["run_command"]["message"]}
    if "malformed_request" in k:
        return {"kind": "malformed", "message": k["malformed_request"]["message"]}
    if "interrupted" in k:
        return {"kind": "interrupted"}
    if "ready" in k:
        return {"kind": "ready"}
    return {"kind": "other", "raw": resp}


def eval_stateless(exe, srcs, setup=(), timeout=120, shards=None, chunk=200):
    """Evaluate each source string in a session that first received `setup`
    inputs. The sources must not depend on each other. A request that kills
    the session (panic) is reported as {kind: 'panic', stderr}; evaluation
    continues with the remaining sources in a fresh session.
    Returns a list of dicts (classify + stdout/stderr) aligned with srcs."""
    shards = shards or common.NCPU
    idx = list(range(len(srcs)))
    chunks = [idx[i:i + chunk] for i in range(0, len(idx), chunk)]
    results = [None] * len(srcs)

    def work(ids):
        todo = list(ids)
        while todo:
            reqs = [{"method": "run", "input": s} for s in setup] + [{"method": "run", "input": srcs[i]} for i in todo]
            resps, err, rc = run_session_raw(exe, reqs, timeout=timeout)
            g = group_responses(resps)
            g = g[len(setup):] if len(g) >= len(setup) else []
            for j, (r, so, se) in enumerate(g[:len(todo)]):
                c = classify(r)
                c["stdout"], c["stderr"] = so, se
                results[todo[j]] = c
            done = min(len(g), len(todo))
            if done < len(todo):
                kind = "timeout" if rc == 124 else "panic"
                m = re.search(r"panicked at ([^\n]*)\n([^\n]*)", err)
                results[todo[done]] = {"kind": kind, "stderr": (m.group(0) if m else err[-400:]), "rc": rc}
                todo = todo[done + 1:]
            else:
                todo = []

    with concurrent.futures.ThreadPoolExecutor(shards) as ex:
        list(ex.map(work, chunks))
    return results


def run_history(exe, reqs, timeout=120, env=None):
    """Run one stateful history. Returns (list of (classified, stdout, stderr)), died: bool, stderr."""
    resps, err, rc = run_session_raw(exe, reqs, timeout=timeout, env=env)
    g = group_responses(resps)
    out = []
    for r, so, se in g:
        c = classify(r)
        c["stdout"], c["stderr"] = so, se
        out.append(c)
    return out, rc != 0, err, rc


def garden_cli(exe, args, stdin=None, timeout=60, cwd=None, env=None):
    e = dict(os.environ)
    e["RUST_BACKTRACE"] = "0"
    if env:
        e.update(env)
    rc, out, err = common.sh([exe] + args, timeout=timeout, cwd=cwd, env=e,
                             input=stdin.encode() if isinstance(stdin, str) else stdin)
    return rc, out, err


def run_program(exe, src, timeout=30, name="prog.gdn", subdir=None):
    """garden run <file>. Returns dict(rc, stdout, stderr, panicked)."""
    d = tempfile.mkdtemp(dir=scratch_dir())
    try:
        p = os.path.join(d, name)
        with open(p, "w") as f:
            f.write(src)
        rc, out, err = garden_cli(exe, ["run", p], timeout=timeout, cwd=d)
    finally:
        import shutil
        shutil.rmtree(d, ignore_errors=True)
    return {"rc": rc, "stdout": out, "stderr": err, "panicked": rc == 101 or "panicked at" in err,
            "timeout": rc == 124}


def batch(exe, reqs, timeout=600, shards=None):
    """`garden verif-batch` over request dicts -> list of response dicts."""
    shards = shards or common.NCPU
    lines = [json.dumps(r) for r in reqs]
    rc, res, err = common.run_lines(exe, ["verif-batch"], lines, timeout=timeout, shards=shards)
    out = []
    for l in res:
        try:
            out.append(json.loads(l))
        except Exception:
            out.append({"bad_response": l})
    while len(out) < len(reqs):
        out.append({"missing": True, "stderr": err[-300:]})
    return out
